#!/usr/bin/env python3
"""Regenerate MANIFEST.json from the table below (kept in one place so it stays valid)."""
import json, os
V = os.path.dirname(os.path.dirname(os.path.abspath(__file__)))
props = [json.loads(l) for l in open(os.path.join(V, "properties.jsonl"))]

TRUST = ("clang 14 front end / IR emission and opt-14 mem2reg translate the headers faithfully (-std=gnu++17, with and without NDEBUG); "
         "libstdc++, Boost and libc are a trusted base whose bodies are not analysed; instantiations analysed are those of the generated "
         "witness matrix listed in the evidence file.")

CLAIMED = {
 "C16": dict(
    technique="effect analysis on LLVM IR (pointer-provenance store classification over the call graph)",
    text="Decides race freedom of the call path as an effect property: over the whole witness matrix (9 policies x signature shapes x "
         "virtual_ptr construction/conversion/accessor routes x thunks) no function reachable from a call entry performs a non-atomic write "
         "to a global, a loaded pointer or a caller-shared reference, and the globals referenced by policy A's call path are disjoint from "
         "those update<B> writes. A read-only path cannot race; this is the argument the property itself rests on. It does not decide that "
         "the value returned is the sequential one beyond that.",
    design_ref="DESIGN.md section 4, C16"),
}
CLAIMED["C01"] = dict(
    technique="symbolic summaries on LLVM IR compared with the documented table walk (C01-walk); AST decision tables for the specificity order and error cells",
    text="Decides necessary structural conditions of dispatch, not the behaviour for every registry: (walk) for every method of the witness "
         "matrix (policies x signature shapes incl. non-virtual parameters before/between/after virtual ones x parameter kinds) the pointer "
         "operator() calls and resolve() returns is, as a symbolic expression over the arguments, exactly the documented slots-then-strides walk "
         "reading each virtual argument once, in order, and no non-virtual one; (tables) the AST rules on the compiler decide the steps update is made "
         "of - the specificity table, the per-pair elimination step of best(), applicability = membership in the covariant set, table geometry "
         "(strides, row-major recursion, group numbering), cell choice for 0/1/2+ best definitions, the run-time model mirroring the registrations "
         "one to one, slot choice and reservation, and the v-table pointer table being written (overwriting) at the key it is read at. That these "
         "steps compose to the right definition for every lattice (an induction over graph algorithms on run-time data) is not decided. The rule "
         "families of C04 (layout), C05 (hash), C08 (class merge, closure), C10 (projection, deferred ids) and the phase rule of C15 also run here: a "
         "change they catch changes which definition runs.",
    design_ref="DESIGN.md section 4, C01")
CLAIMED["C02"] = dict(
    technique="IR symbolic summaries of the ids/constants stored into resolution_error; must-reach-abort path query after every handler call; landing-pad scan of the call path",
    text="Decides the handler side of the property for all instantiations of the witness matrix: ids reported are Policy::dynamic_type of exactly "
         "the virtual arguments' objects in order, arity/status constants are right and the right handler sits in each method_info field; after "
         "every call of a policy error handler anywhere in the library every normal path aborts before returning; no catch / noexcept boundary on "
         "the path swallows a throwing handler's exception; plus the AST rules on what makes a call unresolvable (specificity table, elimination step, "
         "cells for 0 / 2+ best definitions, applicability, class merge, run-time model, every definition registered). Does not decide that error cells "
         "are placed in the right table cells for every registry.",
    design_ref="DESIGN.md section 4, C02")
CLAIMED["C20"] = dict(engine="e3",
    technique="generated static_assert witnesses decided by the type checker",
    text="Decides the property as a statement about type functions: product/apply_product/transform_product yield the row-major Cartesian "
         "product for all list-length vectors in range; use_definitions<D, product<...>> is exactly aggregate<add_definition<D<combo>>...> over the "
         "combinations not derived from not_defined (every subset of a 2x3 product, seeded larger cases, both ways of naming the method); aggregate<> "
         "has one leaf per element for sizes around the 512 split; add_definition wires next iff the container has one. That constructing the "
         "aggregate runs one registration per element is a language guarantee; run-time catalog contents are not observed.",
    design_ref="DESIGN.md section 4, C20")
CLAIMED["C08"] = dict(engine="e3+yast",
    technique="type-checker witnesses over generated hierarchies and list presentations; AST rule on augment_classes",
    text="Decides the compile-time half: for seeded random hierarchies (chains, trees, forests, DAGs with virtual bases, 2-8 classes) and list "
         "presentations (full, permuted, subsets, nested groups, macro forms, default policy) use_classes/class_declaration produce exactly the "
         "registration records 'class with the listed classes that are its bases, in list order'. Of the run-time half it decides structural steps "
         "only: every listed base of every record is recorded, the weight is the size of the duplicate-free list (typestate of the two lists), "
         "'acceptable where expected' is answered from the covariant closure in all consumers, slot reservation covers bases and covariant classes, "
         "the decoder consumes one table per class however often it is registered. It does not decide that these steps compose to the right "
         "lattice for every partial presentation (weight sort, direct-base extraction, closure are algorithms over run-time data).",
    design_ref="DESIGN.md section 4, C08")
CLAIMED["C14"] = dict(engine="yast+yir+e3",
    technique="AST who-may-reference rule over policy keys of statics and functions; IR effect-set disjointness; type-checker witnesses for rebind/replace/remove",
    text="Decides isolation structurally: every mutable static of the library is keyed by a policy type; no function keyed by policy A references a "
         "static or function keyed by an unrelated policy B (nine policies over the same classes in one unit); the globals A's call path touches are "
         "disjoint from those update<B> writes; rebind/replace/remove re-key every facet, inherit nothing keyed by the old policy and yield distinct "
         "static objects (catalogs, dispatch data, hash parameters, v-table pointers, handlers); with a configured YOMM2_DEFAULT_POLICY every API "
         "given no policy (class lists, methods, macros, virtual_ptr, final, update) resolves to that one policy.",
    design_ref="DESIGN.md section 4, C14")
CLAIMED["C11"] = dict(engine="e3+yast+yir",
    technique="type-checker witnesses (cast result types, static/dynamic choice, must-compile / must-fail programs); AST cast-kind rule; IR copy/move-constructor scan",
    text="Decides the property as a statement about the family of instantiations: for every parameter kind x inheritance shape (same class, single "
         "base, second base at non-zero offset, virtual base, two levels) x policy the argument cast has exactly the definition's parameter type, "
         "dynamic_cast is selected exactly when a virtual base is on the path, the thunk has the method's signature, programs with move-only / "
         "rvalue / const-pointee / const virtual_ptr& parameters compile and the shared_ptr value/reference mixes are rejected; conversions between "
         "class pointers on the path are derived<->base or dynamic casts (never bit casts); no copy constructor of a by-value/rvalue argument is "
         "called in operator(), thunk::fn or the cast helpers and moves are bounded per hop; shared_ptr conversions return a pointer whose owner is the "
         "argument (std::static/dynamic_pointer_cast or aliasing with the argument as owner). Run-time addresses and counts are not observed.",
    design_ref="DESIGN.md section 4, C11")
CLAIMED["C12"] = dict(engine="yast+yir",
    technique="AST emission-order model with affine index comparison (generator); AST shape rules (installer/codec); IR symbolic walk with compile-time offsets; IR operand check of the run-time cross-check",
    text="Decides the property as a statement about positions: every reader and writer of a method's slots-and-strides array uses 'slot_k in cell k, "
         "stride_k in cell arity+k-1' - the static-offset generator (each emitted element's index compared as a polynomial in the loop variable and "
         "arity), install_gv, decode/encode, and resolve with compile-time offsets for arity 1-4 incl. non-virtual parameters in between; under "
         "runtime checks each compile-time slot/stride is compared with the installed cell of the same position on every call (no path through the "
         "check avoids the comparison) and a mismatch (only) reaches the handler; generated integers are printed at full width. The numbers update "
         "computes are run-time values and are not decided.",
    design_ref="DESIGN.md section 4, C12")
CLAIMED["C13"] = dict(engine="yast",
    technique="AST counting rule: affine contributions to each declared extent vs values emitted / read per class and entry; truth-table comparison of branch predicates; flag-bit and cell-order agreement across encoder, decoder, augment_methods",
    text="Decides necessary structural agreement between the encoder, the decoder and update's numbering: each declared array extent equals what "
         "the decoder reads or writes per method / class / entry (as affine terms under loop and branch context), the three sites that distinguish "
         "index entries from (method, group) pairs use equivalent predicates, index and stop bits are set where the decoder expects them, error cells "
         "are appended in the order augment_methods numbers them. Does not decide that in-place decoding never overtakes unread input (headroom depends "
         "on run-time sizes) nor that the emitted text compiles for every registry. One recorded finding (class with an empty v-table).",
    design_ref="DESIGN.md section 4, C13")
CLAIMED["C03"] = dict(engine="yast",
    technique="AST decision tables by path enumeration over a finite abstract domain; CFG control dependence",
    text="Decides necessary structural conditions: is_base is the documented per-position table over {equal, base, derived, unrelated}; the value "
         "stored through a definition's next is the sole best candidate's function, the not-implemented handler when there is none and the ambiguity "
         "handler when there are several; candidates are exactly is_base(other, this); the store is control dependent only on the two loops and the "
         "pointer's own null test, so every update recomputes it for every definition; the candidate list is filled by that filter over all the "
         "method's definitions and by nothing else (the filter lambda is exactly the is_base call); best()'s per-pair elimination step is the documented "
         "one; the run-time model and the class merge next is computed from. Does not decide the fold of best() over every lattice.",
    design_ref="DESIGN.md section 4, C03")
CLAIMED["C17"] = dict(engine="yast",
    technique="AST decision tables with symbolic guards; sibling-guard comparison; field pairing",
    text="Decides the counting structure: for a best set of size 0 / 1 / 2+ exactly the matching counters are incremented next to the matching cell, "
         "the two concrete_* counters carry the same guard (concreteness of the outer dimensions and of the current group), accumulate adds each "
         "per-method counter to the field of the same name; a cell of undetermined kind is never appended uncounted; cells / concrete_cells are the "
         "products over every dimension of the (concrete) group counts; a group's concreteness is accumulated over all its classes; the resolution "
         "rules of C01 decide what a gap / an ambiguity is. Does not decide that the cells enumerate real class tuples (run-time grouping).",
    design_ref="DESIGN.md section 4, C17")
CLAIMED["C05"] = dict(engine="yast",
    technique="AST path enumeration of the hash-search scan body; expression equality of probe and look-up; CFG control dependence of the publishing calls",
    text="Decides necessary structure: hash parameters are installed only from the single `if (found)` exit after a complete scan in which an occupied "
         "bucket clears the flag and is never overwritten; the empty-bucket marker is invalid_type in both fill and test (any other value is a legal "
         "id); the search probes with exactly the expression hash_type_id computes, hash_shift = 64 - M with 1 << M buckets; publish_vptrs runs "
         "search -> resize(hash_length) -> stores unconditionally on every update over every id of every class; the checked hash returns an index only "
         "when it is in range and control[index] is the id (also for a checked policy without error handler: it aborts); while trial parameters are "
         "written the table is invalid (hash_length = 0) and an exhausted search only reports and aborts. Does not decide that the random search succeeds or terminates, nor table contents.",
    design_ref="DESIGN.md section 4, C05")
CLAIMED["C10"] = dict(engine="yast",
    technique="AST who-must-wrap rule, CFG control-dependence whitelists, loop-nest rule, typestate rule on deferred-id flags",
    text="Decides the places where an RTTI flavour could lose an id: class_map is always keyed through Policy::type_index; every new id of a class is "
         "appended to its id list; the three publishers and the hash search iterate every id of every class; the hash treats every value except "
         "invalid_type as a legal id; deferred ids are resolved once per list, the flag being set after all cells and read only for non-empty lists; "
         "for every virtual parameter kind the class whose id is registered is the cv-unqualified pointee class (type-checker table); every registration "
         "record of a class gets the class's v-table pointer installed; virtual_ptr's dynamic route reads the table at the dynamic id under every flavour. "
         "Two defects found and repaired (F19, F20). Equality of dispatch results across flavours is not decided.",
    design_ref="DESIGN.md section 4, C10")
CLAIMED["C04"] = dict(engine="yast",
    technique="AST affine rules on index / pointer / size expressions; CFG control-dependence whitelist on the slot-reservation steps",
    text="Decides necessary structure, not collision freedom for every lattice: the v-table entry written at update (slot - first_slot), the biased "
         "pointer installed by install_gv and by the decoder, and the lattice v-table size agree; dispatch_data is sized as the sum of all dispatch "
         "table and v-table entries and each entry writes exactly one cell; in the lattice allocator the steps that mark a chosen slot, reserve it in "
         "every base and propagate it through every covariant class and its bases are guarded by nothing beyond the visited check and the loops, range "
         "over transitive_bases / covariant_classes, and the slot chosen is free in used AND reserved sets; tree numbering is consecutive (symbolic "
         "counter), sizes the v-table and seeds the derived classes with the counter, and is only chosen when no class at or below the root has "
         "several bases and descends into every derived class; every parameter registers the pair (its method, its position); classes get cells by "
         "covariant-set membership over completely merged records; the v-table pointer table is overwritten by every update. That "
         "the allocation is collision-free and the tables large enough for every lattice (a graph algorithm over run-time data) is NOT decided.",
    design_ref="DESIGN.md section 4, C04")
CLAIMED["C07"] = dict(engine="yast",
    technique="AST who-may-read rule over statics on the update path; CFG control-dependence whitelists of installing stores; typestate rule; catalog case tables",
    text="Decides the structural reasons the property can hold: update-path functions read only policy-keyed registration/output state (frozen list, "
         "no function-local static, cache or 'compiled' flag - over the whole library the only function-local static with a dynamic initialiser is "
         "add_function's registration record); next pointers, the hash search, v-table pointer publication, static v-table pointers "
         "and slots/strides are reinstalled unconditionally by every update; deferred ids are resolved exactly once; registration objects add and "
         "remove themselves from the right catalog and the list operations are right in every list-shape case. Equivalence with a fresh process for "
         "all histories (an induction over histories) is not mechanised.",
    design_ref="DESIGN.md section 4, C07")
CLAIMED["C09"] = dict(engine="yir+yast",
    technique="IR symbolic summaries of the value stored in the v-table-pointer field on every construction route, compared with static_vptr<pointee> / the summary of Policy::dynamic_vptr; AST rules for the indirect table",
    text="Decides v-table pointer provenance on every construction route of the witness matrix (exact type, base reference, shared_ptr lvalue / const "
         "lvalue / rvalue, final, make_virtual_shared, converting/copy/move constructors, cast) for nine policies: static routes take "
         "static_vptr<pointee class> of the same policy (its address when indirect), the dynamic route reads the cell Policy::dynamic_vptr reads, "
         "conversions and cast carry the source's pointer, accessors return the stored object; the indirect table holds addresses of static v-table "
         "pointers written only by install_gv / decode; the table dynamic_vptr reads is written by publish_vptrs at the same (hashed) key with an "
         "overwriting store. Equality of run-time dispatch results is not observed.",
    design_ref="DESIGN.md section 4, C09")
CLAIMED["C15"] = dict(engine="yast+yir",
    technique="AST rules on the update-time look-ups (null test, reported id, abort, control dependence); IR must-pass-through query (checked hash) on every object-to-vptr route; operand check of final's comparison",
    text="Decides that every place a class id enters is checked under the stock checked policies: the three update-time look-ups run for every "
         "record, are null-tested first and report the looked-up id then abort; dynamic_vptr, virtual_ptr's constructor on both branches and final "
         "always pass the checked hash before a v-table pointer is used; final reports a method_table_error carrying the dynamic id exactly when "
         "dynamic and static type differ. That the reported id is right for every registry (values) is not decided.",
    design_ref="DESIGN.md section 4, C15")
CLAIMED["C18"] = dict(engine="yast",
    technique="AST decision tables per list-shape case (canonicalised link assignments); constructor/destructor pairing; CFG control dependence; idempotence table",
    text="Decides the induction step, not the induction: in each list-shape case (empty / only / first / last / interior element) push_back and remove "
         "perform exactly the link updates the documented invariant needs and reset the removed node's links; every catalog registration made in a "
         "constructor has an unconditional removal from the same catalog in the destructor; add_function registers a definition once; the cases include a "
         "node that is not in the list (its catalog was cleared): nothing changes and nothing null is dereferenced (defect F21 found and repaired); iterators, "
         "postfix increment included, enumerate from first along next. Correctness for "
         "all histories follows by induction over operations, which is not mechanised here.",
    design_ref="DESIGN.md section 4, C18")
CLAIMED["C19"] = dict(engine="yast",
    technique="AST table-inclusion rule on generator::keywords; classification of the skip conditions of add_forward_declaration; path table of starts_with",
    text="Decides the second sentence of the property only (which words of a type description are skipped and which are kept): the keyword table holds "
         "every keyword a demangled type description can contain (fundamental types incl. the wide character types, cv-qualifiers, elaborated-type "
         "keywords - a reasoned list in the checker); a matched word is dropped only as a template name, a non-identifier, a word of that table or "
         "a std:: / yorel:: entity (prefixes with the scope operator), and every other word is recorded unconditionally; the name pattern (a literal, "
         "interpreted over sample texts) matches whole words only; detail::starts_with is "
         "'begins with'; the writer's two namespace-closing loops agree (one brace per scope operator). Does NOT decide the rest of the writer: balance of the namespace braces, one declaration per class, exactly its namespace (a string "
         "algorithm over run-time characters). One defect found and repaired (F16).",
    design_ref="DESIGN.md section 4, C19")
CLAIMED["C06"] = dict(engine="yast",
    technique="AST decision tables and merge rules at the sites where several candidates or several records of one thing meet (no positional tie-break)",
    text="Does NOT decide the property itself (a 2-safety statement over permutations of run-time registration lists). Decides necessary "
         "conditions: at every site where a registration position could leak into the outcome it does not - a best set of two or more installs the "
         "ambiguity error in the dispatch cell and in next, never a candidate chosen by position; best() removes a member only because the "
         "candidate beats that member and drops the candidate only because a member beats it, with the documented specificity tables; several "
         "records of one class all contribute their bases, a group's concreteness is accumulated over all its classes, a definition is refused "
         "only when it is itself already registered; the specificity relation extracted from the code is not transitive (a position with unrelated "
         "classes passes), so a single survivor of best()'s fold must be confirmed against every candidate - a defect found this way (F29: the "
         "definition that ran depended on the order of registration) was repaired. Consistent renumberings (slots, groups) are not decided.",
    design_ref="DESIGN.md section 4, C06")
NA = {
}
DEFAULT_NA = "check not built yet (see DESIGN.md section 4 for the planned clause)"

m = {"version": 1,
     "setup_cmd": "bash engine/build.sh",
     "hooks": {"guard": "YOMM2_VERIF", "enable": "none: static analysis reads /repo/include as it is; no hooks exist in /repo",
               "baseline_off_cmd": "cmake --build /repo/_build && ctest --test-dir /repo/_build -j8 --timeout 900",
               "source_commits": [], "add_only": True},
     "engines": [
        {"name": "yast", "path": "engine/yast.cpp", "kind_free_text": "clang front-end plugin serialising instantiated, type-resolved ASTs, CFGs, static-storage variables with policy keys; Python rules lib/yv/astq.py + checks",
         "serves_properties": ["C01", "C02", "C03", "C04", "C05", "C06", "C07", "C08", "C09", "C10", "C11", "C12", "C13", "C14", "C15", "C17", "C18", "C19"]},
        {"name": "e3", "path": "lib/yv/e3.py", "kind_free_text": "generated compile-pass / compile-fail / static_assert witnesses decided by clang's type checker, diagnostics attributed per obligation",
         "serves_properties": ["C08", "C11", "C14", "C20"]},
        {"name": "yir", "path": "engine/yir.cpp", "kind_free_text": "LLVM-IR (post mem2reg) serialiser + Python rules lib/yv/{irq,eff,sym}.py: effect sets, symbolic summaries, path queries",
         "serves_properties": ["C01", "C02", "C09", "C11", "C12", "C14", "C15", "C16"]},
     ],
     "checks": [], "not_applicable": [],
     "notes": "Static analysis only. Exit codes: 0 held, 1 VIOLATION, 2 analysis broken (anchor vanished / floor not met). known_findings.json lists genuine defects (fixed / recorded)."}
for p in props:
    i = p["id"]
    if i in CLAIMED:
        c = CLAIMED[i]
        m["checks"].append({"property_id": i,
            "quick_cmd": "bin/check %s --tier quick" % i,
            "thorough_cmd": "bin/check %s --tier thorough" % i,
            "evidence_file": "evidence/%s.json" % i,
            "replay_cmd_template": "cat {path}",
            "engine": c.get("engine", "yir"),
            "level_claimed": {"category": "other", "text": c["text"], "design_ref": c["design_ref"]},
            "level_note": c.get("note", TRUST),
            "technique": c["technique"]})
    else:
        m["not_applicable"].append({"property_id": i, "reason": NA.get(i, DEFAULT_NA)})
json.dump(m, open(os.path.join(V, "MANIFEST.json"), "w"), indent=1)
print("claimed", [c["property_id"] for c in m["checks"]])
