#!/usr/bin/env python3
"""mkmutant2.py NAME PROPS EXPECT NOTE  < spec   where spec is lines:  FILE<TAB>old<TAB>new  (\\n escapes), each old occurring once."""
import json, os, shutil, subprocess, sys, tempfile
name, props, expect, note = sys.argv[1:5]
spec = [l.rstrip("\n").split("\t") for l in sys.stdin if l.strip()]
tmp = tempfile.mkdtemp(prefix="mm.")
try:
    for d in ("a", "b"):
        shutil.copytree("/repo/include", os.path.join(tmp, d, "include"))
    for file, old, new in spec:
        p = os.path.join(tmp, "b", "include/yorel/yomm2", file)
        s = open(p).read()
        old = old.replace("\\n", "\n"); new = new.replace("\\n", "\n")
        assert s.count(old) == 1, "old occurs %d times: %s" % (s.count(old), old[:60])
        open(p, "w").write(s.replace(old, new))
    r = subprocess.run(["diff", "-ru", "a/include", "b/include"], cwd=tmp, capture_output=True, text=True)
    open("/verif/selftest/mutants/%s.diff" % name, "w").write(r.stdout)
    sys.path.insert(0, "/verif/tools")
    import importlib.util
    spec_ = importlib.util.spec_from_file_location("eqm", "/verif/tools/eqmutants.py")
    src = open("/verif/tools/eqmutants.py").read()
    tu = src[src.index("TU = r'''") + 9:src.index("'''\ndef compiles")]
    open(os.path.join(tmp, "t.cpp"), "w").write(tu)
    for flags in ([], ["-DNDEBUG"]):
        r = subprocess.run(["g++", "-std=gnu++17", "-fsyntax-only", "-I", os.path.join(tmp, "b/include"), os.path.join(tmp, "t.cpp")] + flags, capture_output=True, text=True)
        if r.returncode:
            print("DOES NOT COMPILE:", r.stderr[-800:]); sys.exit(1)
    ms = json.load(open("/verif/selftest/mutants.json"))
    ms = [m for m in ms if m["name"] != name]
    ms.append({"name": name, "patch": name + ".diff", "properties": props.split(","), "expect": expect, "note": note})
    json.dump(ms, open("/verif/selftest/mutants.json", "w"), indent=1)
    print("ok", name)
finally:
    shutil.rmtree(tmp, ignore_errors=True)
