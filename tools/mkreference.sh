#!/bin/bash
# Regenerate reference/<ID>.<tier>.json (obligation kinds confirmed on the current tree). Deliberate, never part of a check.
# usage: tools/mkreference.sh [quick|thorough|both] [IDs...]
cd "$(dirname "$0")/.."
tier=${1:-both}; shift
ids=${@:-C01 C02 C03 C04 C05 C07 C08 C09 C10 C11 C12 C13 C14 C15 C16 C17 C18 C20}
for t in quick thorough; do
  [ "$tier" = both ] || [ "$tier" = "$t" ] || continue
  for c in $ids; do
    python3 -c "import os;p='reference/$c.$t.json';os.path.exists(p) and os.remove(p)"
    YV_WRITE_REFERENCE=1 bin/check $c --tier $t 2>&1 | tail -1 | cut -c1-100
  done
done
